#!/venv/bin/python
"""Self-test of tie T against HARMLESS refactorings of the translated sources (C16 material laws, C08 functions).

    translate/selftest_rewrites.py [--only NAME ...] [--jobs N] [--keep]

For every entry of REWRITES a scratch copy of /repo/src is made, the textual replacement is applied (it must apply), and
`./check <property>` is run against it (PYLIFE_REPO) in a scratch copy of /verif.  A harmless rewrite (same real function,
same or better floating-point behaviour) must give exit 0: the translator accepts the spelling, every theorem still checks
against the regenerated definitions, and the regenerated model agrees with the rewritten code (K).
Entries marked `expect = "broken"` are NOT harmless (they change the real function): the check must exit 1.

Nothing under /verif or /repo is modified (scratch directories under $TMPDIR, removed afterwards unless --keep).
"""
import argparse
import os
import shutil
import subprocess
import sys
import tempfile
from concurrent.futures import ThreadPoolExecutor

VERIF = os.path.dirname(os.path.dirname(os.path.abspath(__file__)))
REPO = os.environ.get("PYLIFE_REPO", "/repo")
ML = "src/pylife/materiallaws/"

# (name, property, file, old, new, expect)
REWRITES = [
    # ---- true_stress_strain.py
    ("log1p", "C16", ML + "true_stress_strain.py", "return np.log(1. + tech_strain)", "return np.log1p(tech_strain)", "ok"),
    ("log_sum_reordered", "C16", ML + "true_stress_strain.py", "return np.log(1. + tech_strain)", "return np.log(tech_strain + 1)", "ok"),
    ("log_local_temp", "C16", ML + "true_stress_strain.py", "return np.log(1. + tech_strain)",
     "stretch = 1.0 + np.asarray(tech_strain, dtype=float)\n    return np.log(stretch)", "ok"),
    ("fracture_strain_neg_log", "C16", ML + "true_stress_strain.py", "return np.log(1./(1. - reduction_area_fracture))",
     "return -np.log(1. - reduction_area_fracture)", "ok"),
    ("fracture_strain_log1p", "C16", ML + "true_stress_strain.py", "return np.log(1./(1. - reduction_area_fracture))",
     "return -np.log1p(-reduction_area_fracture)", "ok"),
    ("fracture_strain_int_literals", "C16", ML + "true_stress_strain.py", "return np.log(1./(1. - reduction_area_fracture))",
     "return np.log(1/(1 - reduction_area_fracture))", "ok"),
    ("true_stress_distributed", "C16", ML + "true_stress_strain.py", "return tech_stress * (1. + tech_strain)",
     "return tech_stress + tech_stress * tech_strain", "ok"),
    ("true_stress_commuted", "C16", ML + "true_stress_strain.py", "return tech_stress * (1. + tech_strain)",
     "return (tech_strain + 1.) * tech_stress", "ok"),
    ("true_stress_np_multiply", "C16", ML + "true_stress_strain.py", "return tech_stress * (1. + tech_strain)",
     "return np.multiply(tech_stress, np.add(1., tech_strain))", "ok"),
    ("fracture_stress_two_divisions", "C16", ML + "true_stress_strain.py",
     "return fracture_force/(initial_cross_section * (1. - reduction_area_fracture))",
     "return fracture_force / initial_cross_section / (1. - reduction_area_fracture)", "ok"),
    ("fracture_stress_module_constant", "C16", ML + "true_stress_strain.py",
     "import numpy as np\n", "import numpy as np\n\n_ONE = 1.0\n", "ok"),
    # ---- hookeslaw.py
    ("hooke_square_operator", "C16", ML + "hookeslaw.py", "factor = self._Et / (1 - np.power(self._nut, 2.))",
     "factor = self._Et / (1 - self._nut**2)", "ok"),
    ("hooke_np_square", "C16", ML + "hookeslaw.py", "factor = self._Et / (1 - np.power(self._nut, 2.))",
     "factor = self._Et / (1 - np.square(self._nut))", "ok"),
    ("hooke_square_product", "C16", ML + "hookeslaw.py", "factor = self._Et / (1 - np.power(self._nut, 2.))",
     "factor = self._Et / (1 - self._nut * self._nut)", "ok"),
    ("hooke_square_factored", "C16", ML + "hookeslaw.py", "factor = self._Et / (1 - np.power(self._nut, 2.))",
     "factor = self._Et / ((1 - self._nut) * (1 + self._nut))", "ok"),
    ("hooke_Et_square_operator", "C16", ML + "hookeslaw.py", "self._Et = self._E / (1 - np.power(self._nu, 2))",
     "self._Et = self._E / (1 - self._nu**2)", "ok"),
    ("hooke_divide_instead_of_reciprocal", "C16", ML + "hookeslaw.py", "e11 = 1. / self._Et * (s11 - self._nut * s22)",
     "e11 = (s11 - self._nut * s22) / self._Et", "ok"),
    ("hooke_G_half", "C16", ML + "hookeslaw.py", "self._G = E / (2. * (1 + nu))", "self._G = 0.5 * E / (1 + nu)", "ok"),
    ("hooke_G_two_divisions", "C16", ML + "hookeslaw.py", "self._G = E / (2. * (1 + nu))", "self._G = E / 2 / (1. + nu)", "ok"),
    ("hooke_K_reordered", "C16", ML + "hookeslaw.py", "self._K = E / (3. * (1 - 2 * nu))", "self._K = E / ((1 - nu * 2) * 3)", "ok"),
    ("hooke_guard_chained", "C16", ML + "hookeslaw.py", "if nu < - 1 or nu > 1./2:", "if not (-1 <= nu <= 0.5):", "ok"),
    ("hooke_guard_flipped", "C16", ML + "hookeslaw.py", "if nu < - 1 or nu > 1./2:", "if 0.5 < nu or -1. > nu:", "ok"),
    ("hooke_shear_commuted", "C16", ML + "hookeslaw.py", "g12 = 1. / self._G * s12\n        return e11, e22, e33, g12",
     "g12 = s12 / self._G\n        return e11, e22, e33, g12", "ok"),
    ("hooke3d_local_temporaries", "C16", ML + "hookeslaw.py",
     "factor1 = self._E / ((1 + self._nu) * (1 - 2 * self._nu))",
     "nu = self._nu\n        denominator = (1 + nu) * (1 - 2 * nu)\n        factor1 = self._E / denominator", "ok"),
    ("hooke3d_reordered_sum", "C16", ML + "hookeslaw.py", "s11 = factor1 * (factor2 * e11 + self._nu * (e22 + e33))",
     "s11 = factor1 * (self._nu * (e33 + e22) + e11 * factor2)", "ok"),
    ("hooke3d_e33_sign_moved", "C16", ML + "hookeslaw.py", "e33 = - self._nu / self._E * (s11 + s22)",
     "e33 = -(self._nu * (s11 + s22)) / self._E", "ok"),
    ("hooke1d_commuted", "C16", ML + "hookeslaw.py", "return np.asarray(strain) * self._E", "return self._E * np.asarray(strain)", "ok"),
    ("hooke_s33_private_attr", "C16", ML + "hookeslaw.py", "s33 = self.nu * (s11 + s22)", "s33 = self._nu * s11 + self._nu * s22", "ok"),
    # ---- rambgood.py
    ("ro_pow_operator", "C16", ML + "rambgood.py", "return signstress * np.power(absstress/self._K, 1./self._n)",
     "return signstress * (absstress/self._K)**(1/self._n)", "ok"),
    ("ro_exponent_local", "C16", ML + "rambgood.py", "return signstress * np.power(absstress/self._K, 1./self._n)",
     "exponent = 1./self._n\n        return np.power(absstress/self._K, exponent) * signstress", "ok"),
    ("ro_abs_sign_inlined", "C16", ML + "rambgood.py", "absstress, signstress = self._get_abs_sign(stress)",
     "absstress = np.abs(stress)\n        signstress = np.sign(stress)", "ok"),
    ("ro_strain_inlined", "C16", ML + "rambgood.py", "return self.elastic_strain(stress) + self.plastic_strain(stress)",
     "return self.plastic_strain(stress) + stress / self._E", "ok"),
    ("ro_compliance_divided", "C16", ML + "rambgood.py",
     "return 1./self._E + 1./(self._n*self._K) * np.power(stress/self._K, 1./self._n - 1)",
     "return 1/self._E + np.power(stress/self._K, 1/self._n - 1) / (self._n*self._K)", "ok"),
    ("ro_compliance_reordered", "C16", ML + "rambgood.py",
     "return 1./self._E + 1./(self._n*self._K) * np.power(stress/self._K, 1./self._n - 1)",
     "plastic = np.power(stress/self._K, 1./self._n - 1.) / self._K / self._n\n        return plastic + 1./self._E", "ok"),
    ("ro_modulus_reciprocal", "C16", ML + "rambgood.py", "return 1. / self.tangential_compliance(stress)",
     "return np.reciprocal(self.tangential_compliance(stress))", "ok"),
    ("ro_delta_strain_half", "C16", ML + "rambgood.py", "return 2*self.strain(stress=delta_stress/2.)",
     "return self.strain(0.5*delta_stress) * 2.", "ok"),
    ("ro_delta_stress_half", "C16", ML + "rambgood.py", "return 2*self.stress(strain=delta_strain/2.)",
     "half = delta_strain / 2\n        return self.stress(half) * 2", "ok"),
    ("ro_guard_np_any", "C16", ML + "rambgood.py", "if (stress > max_stress).any():", "if np.any(max_stress < stress):", "ok"),
    ("ro_hysteresis_locals", "C16", ML + "rambgood.py",
     "return self.strain(max_stress) - self.delta_strain(max_stress-stress)",
     "delta = max_stress - stress\n        upper = self.strain(max_stress)\n        return upper - self.delta_strain(delta)", "ok"),
    ("ro_helper_function", "C16", ML + "rambgood.py",
     "class RambergOsgood:", "def _ratio(a, b):\n    return a / b\n\n\nclass RambergOsgood:", "ok"),
    # ---- NOT harmless: the check must still object
    ("BROKEN_log1p_of_abs", "C16", ML + "true_stress_strain.py", "return np.log(1. + tech_strain)",
     "return np.sign(tech_strain) * np.log1p(np.abs(tech_strain))", "broken"),
    ("BROKEN_G_coefficient", "C16", ML + "hookeslaw.py", "self._G = E / (2. * (1 + nu))", "self._G = E / (2. * (1 - nu))", "broken"),
    ("BROKEN_guard_all", "C16", ML + "rambgood.py", "if (stress > max_stress).any():", "if (stress > max_stress).all():", "broken"),
    ("BROKEN_masing_factor", "C16", ML + "rambgood.py", "return 2*self.strain(stress=delta_stress/2.)",
     "return 2*self.strain(stress=delta_stress/2.5)", "broken"),
    # ---- C08: utils/functions.py, the Miner modifiers
    ("c08_std_commuted", "C08", "src/pylife/utils/functions.py", "return 0.39015207303618954*np.log10(T)",
     "return np.log10(T) * 0.39015207303618954", "ok"),
    ("c08_range_np_power", "C08", "src/pylife/utils/functions.py", "return 10**(2.5631031310892007*std)",
     "return np.power(10., std * 2.5631031310892007)", "ok"),
    ("c08_haibach_int_literals", "C08", ML + "woehlercurve.py", "new['k_2'] = 2. * self._obj.k_1 - 1.",
     "new['k_2'] = 2 * self._obj.k_1 - 1", "ok"),
    ("c08_haibach_sum", "C08", ML + "woehlercurve.py", "new['k_2'] = 2. * self._obj.k_1 - 1.",
     "new['k_2'] = self._obj.k_1 + self._obj.k_1 - 1.", "ok"),
    ("c08_haibach_property", "C08", ML + "woehlercurve.py", "new['k_2'] = 2. * self._obj.k_1 - 1.",
     "new['k_2'] = -1. + self.k_1 * 2.", "ok"),
    ("BROKEN_c08_haibach", "C08", ML + "woehlercurve.py", "new['k_2'] = 2. * self._obj.k_1 - 1.",
     "new['k_2'] = 2. * self._obj.k_1 - 2.", "broken"),
]


def run_one(entry, slot, keep):
    name, prop, rel, old, new, expect = entry
    repo = os.path.join(slot, "repo_" + name)
    if os.path.exists(repo):
        shutil.rmtree(repo)
    os.makedirs(repo)
    shutil.copytree(os.path.join(REPO, "src"), os.path.join(repo, "src"), symlinks=True)
    path = os.path.join(repo, rel)
    src = open(path).read()
    if src.count(old) < 1:
        return name, expect, "NOT-APPLICABLE", "the text to replace does not occur in " + rel
    src = src.replace(old, new, 1)
    if name == "fracture_stress_module_constant":
        src = src.replace("(1. - reduction_area_fracture))", "(_ONE - reduction_area_fracture))")
    if name == "ro_helper_function":
        src = src.replace("return stress/self._E", "return _ratio(stress, self._E)")
    with open(path, "w") as f:
        f.write(src)
    verif = os.path.join(slot, "verif")
    env = dict(os.environ, PYLIFE_REPO=repo, VERIF_SEED="1")
    p = subprocess.run([os.path.join(verif, "check"), prop], env=env, capture_output=True, text=True)
    lines = [l for l in (p.stdout + p.stderr).splitlines() if not l.startswith("WARNING conda")]
    got = {0: "ok", 1: "broken"}.get(p.returncode, f"exit {p.returncode}")
    tail = [l for l in lines if "translator" in l.lower() or "VIOLATION" in l or "obligations" in l or "correspondence:" in l
            or "oracle:" in l or "error:" in l]
    if not keep:
        shutil.rmtree(repo, ignore_errors=True)
    return name, expect, got, " | ".join(tail[-6:])


def main():
    ap = argparse.ArgumentParser(description=__doc__, formatter_class=argparse.RawDescriptionHelpFormatter)
    ap.add_argument("--only", nargs="*", default=None)
    ap.add_argument("--jobs", type=int, default=4)
    ap.add_argument("--keep", action="store_true")
    a = ap.parse_args()
    entries = [e for e in REWRITES if a.only is None or e[0] in a.only]
    base = tempfile.mkdtemp(prefix="rewrites.")
    slots = []
    for j in range(max(1, min(a.jobs, len(entries)))):
        slot = os.path.join(base, f"slot{j}")
        os.makedirs(slot)
        shutil.copytree(VERIF, os.path.join(slot, "verif"), symlinks=True,
                        ignore=shutil.ignore_patterns(".git", "replays", "evidence", "seeded"))
        slots.append(slot)
    results = []

    def worker(j):
        out = []
        for i, e in enumerate(entries):
            if i % len(slots) == j:
                r = run_one(e, slots[j], a.keep)
                print(f"{'PASS' if r[1] == r[2] else 'FAIL'}  {r[0]:36s} expected {r[1]:7s} got {r[2]:7s}  {r[3][:400]}", flush=True)
                out.append(r)
        return out

    with ThreadPoolExecutor(len(slots)) as ex:
        for out in ex.map(worker, range(len(slots))):
            results.extend(out)
    bad = [r for r in results if r[1] != r[2]]
    print(f"{len(results) - len(bad)} of {len(results)} as expected")
    if not a.keep:
        shutil.rmtree(base, ignore_errors=True)
    else:
        print("kept:", base)
    return 1 if bad else 0


if __name__ == "__main__":
    sys.exit(main())
