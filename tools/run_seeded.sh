#!/bin/sh
# usage: tools/run_seeded.sh <property> <patch.diff> [tier]
# Applies the patch to a scratch worktree of /repo (never to /repo itself while other work is going on),
# runs ./check <property> against it and removes the worktree.  Exit code = exit code of the check.
P=$1; PATCH=$(realpath "$2"); TIER=${3:-quick}
WT=$(mktemp -d /tmp/seedrun.XXXXXX)
rmdir "$WT"
git -C /repo worktree add -q "$WT" HEAD || exit 2
cp /repo/src/pylife/*.so "$WT/src/pylife/" 2>/dev/null
if ! git -C "$WT" apply "$PATCH"; then echo "patch does not apply"; git -C /repo worktree remove --force "$WT"; exit 2; fi
cd "$(dirname "$0")/.." || exit 2
LOG=$(mktemp)
VERIF_EVIDENCE_DIR=$(mktemp -d) PYLIFE_REPO="$WT" ./check "$P" --tier "$TIER" > "$LOG" 2>&1
rc=$?
grep -v "^WARNING conda" "$LOG" | tail -${TAIL:-12}
rm -f "$LOG"
git -C /repo worktree remove --force "$WT"
exit $rc
