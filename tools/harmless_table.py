#!/usr/bin/env python3
"""Markdown table of the harmless changes under /verif/harmless (from their meta.json)."""
import glob, json, os
HERE = os.path.dirname(os.path.dirname(os.path.abspath(__file__)))
print("| harmless change | what it is (first line of its notes) | files touched | checks run -> result |")
print("|---|---|---|---|")
for mp in sorted(glob.glob(os.path.join(HERE, "harmless", "*", "meta.json"))):
    m = json.load(open(mp))
    name = os.path.basename(os.path.dirname(mp))
    what = ""
    notes = os.path.join(os.path.dirname(mp), "notes.md")
    if os.path.exists(notes):
        for line in open(notes):
            line = line.strip().lstrip("#").strip()
            if line:
                what = line[:120]
                break
    res = "; ".join(f"{p}: {v['verdict']}" for p, v in m["checks"].items())
    print(f"| {name} | {what} | {', '.join(os.path.basename(t) for t in m['touched'])} | {res} |")
