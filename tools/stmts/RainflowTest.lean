import Proofs.Stmts
open PylifeVerif PylifeVerif.Rainflow

def allSigs (alpha : List Int) : Nat → List (List Int)
  | 0 => [[]]
  | n+1 => (allSigs alpha n).flatMap fun s => alpha.map fun a => a :: s

def sigsUpTo (alpha : List Int) (n : Nat) : List (List Int) := (List.range (n+1)).flatMap (allSigs alpha)

def compositions : List Int → List (List (List Int))
  | [] => [[]]
  | [x] => [[[x]]]
  | x :: xs => (compositions xs).flatMap fun cs =>
      match cs with
      | [] => [[[x]]]
      | c :: rest => [[x] :: c :: rest, (x :: c) :: rest]

def S := sigsUpTo [0,1,2,3] 6
def T := sigsUpTo [-2,-1,0,1,2] 6

#eval S.length
#eval S.all fun s => findTurns s == Spec.reversals s
#eval S.all fun s => findTurns s == findTurnsNumpy s
#eval (S.filter (· ≠ [])).all fun s => (compositions s).all fun cs => C01.turnsRun cs == C01.turnsRun [s]
#eval (S.filter (· ≠ [])).all fun s => (compositions s).all fun cs => fkmRun cs == fkmRun [s]
#eval (S.filter (· ≠ [])).all fun s => (compositions s).all fun cs =>
  let a := fpRun cs; let b := fpRun [s]
  a.cycles == b.cycles && a.stack == b.stack && a.last == b.last && a.ts == b.ts && a.chunks == cs.map List.length
#eval (S.filter (· ≠ [])).all fun s => (compositions s).all fun cs =>
  let a := tpRun cs; let b := tpRun [s]
  a.cycles == b.cycles && a.stack == b.stack && a.last == b.last && a.ts == b.ts
#eval (T.filter (2 ≤ ·.length)).all fun s =>
  ((fpRun [s]).cycles, C02.residualPts (fpRun [s])) == Spec.fourPoint (Spec.turningPoints s)
#eval (T.filter (2 ≤ ·.length)).all fun s =>
  (((fpRun [s]).cycles.flatMap fun c => [c.1, c.2]) ++ C02.residualPts (fpRun [s])).isPerm (Spec.turningPoints s)
#eval (T.filter (2 ≤ ·.length)).all fun s =>
  (tpRun [s]).cycles.isPerm (fpRun [s]).cycles && C02.residualPts (tpRun [s]) == C02.residualPts (fpRun [s])
#eval T.all fun s =>
  ((fkmRun [s]).cycles, (fkmRun [s]).res) ==
      ((Spec.hcm ((Spec.reversals s).map (·.2))).cycles, (Spec.hcm ((Spec.reversals s).map (·.2))).res)
#eval T.all fun s => (((fkmRun [s]).cycles.flatMap fun c => [c.1, c.2]) ++ (fkmRun [s]).res).isPerm ((Spec.reversals s).map (·.2))
-- C03
#eval T.all fun s => [(-3 : Int), -1, 2].all fun a => [(0:Int), 5].all fun b =>
  let f := fun x => a * x + b
  let r := fpRun [s.map f]; let r0 := fpRun [s]
  r.cycles == r0.cycles.map (C03.mapCycle f) && r.stack == r0.stack.map (C03.mapPt f) && r.last == r0.last.map f
#eval T.all fun s =>
  let f := fun (x:Int) => -x
  let r := tpRun [s.map f]; let r0 := tpRun [s]
  r.cycles == r0.cycles.map (C03.mapCycle f) && r.stack == r0.stack.map (C03.mapPt f) && r.last == r0.last.map f
#eval T.all fun s =>
  let r := fkmRun [s.map (- ·)]; let r0 := fkmRun [s]
  r.cycles == r0.cycles.map (fun c => (-c.1, -c.2)) && r.res == r0.res.map (- ·) && r.ir == r0.ir
def optSigs : Nat → List (List (Option Int))
  | 0 => [[]]
  | n+1 => (optSigs n).flatMap fun s => [none, some 0, some 1, some 2].map fun a => a :: s
#eval ((List.range 7).flatMap optSigs).all fun s =>
  findTurnsNan s == (findTurns (s.filterMap id)).map fun p => (C03.origIndex s p.1, p.2)
#eval ((List.range 7).flatMap optSigs).all fun s => (findTurnsNan s).all fun p => s[p.1]? == some (some p.2)
