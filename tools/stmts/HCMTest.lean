import Proofs.StmtsHCM
open PylifeVerif PylifeVerif.HCM

def allSigs (alpha : List Int) : Nat → List (List Int)
  | 0 => [[]]
  | n+1 => (allSigs alpha n).flatMap fun s => alpha.map fun a => a :: s
def sigsUpTo (alpha : List Int) (lo n : Nat) : List (List Int) := ((List.range (n+1)).filter (· ≥ lo)).flatMap (allSigs alpha)
def two (s : List Int) : Bool := s.any fun a => s.any fun b => a != b
def srt (l : List (Int × Int)) := l.toArray.qsort (fun a b => a.1 < b.1 || (a.1 == b.1 && a.2 < b.2)) |>.toList

def T := (sigsUpTo [-200,-100,0,100,200] 2 6).filter two
def laws := [lawLinear, lawSat]
#eval T.length
-- memory3_symmetric / closed flags
#eval T.all fun s => laws.all fun law => (twoPass law (C04.one s)).recs.all fun h =>
  (h.closed || (h.zeroMean && h.loadMin == vneg h.loadMax && h.sMin == vneg h.sMax && h.eMin == vneg h.eMax)) && (!h.closed || !h.zeroMean)
-- pass2 all closed
#eval T.all fun s => laws.all fun law => (twoPass law (C04.one s)).recs.all fun h => h.run != 2 || h.closed
-- pass2 = periodic rainflow
#eval T.all fun s => srt (C04.pass2Ranges (twoPass lawLinear (C04.one s))) == srt (Spec.periodicRainflow s)
-- interior insertion
def ins (s : List Int) : List (List Int) :=
  (List.range (s.length - 1)).flatMap fun i =>
    let x := s[i]!; let y := s[i+1]!
    ([x, y, (x+y)/2].eraseDups).map fun v => s.take (i+1) ++ [v] ++ s.drop (i+1)
def T5 := (sigsUpTo [-200,-100,0,100,200] 2 5).filter two
#eval T5.all fun s => (ins s).all fun s' => laws.all fun law => (twoPass law (C04.one s')).recs == (twoPass law (C04.one s)).recs
-- append
#eval T5.all fun s =>
  let a := s.head!; let z := s.getLast!
  ([z, (a+z)/2, a].filter fun v => (v != a || v == z) && ((a ≤ v && v ≤ z) || (z ≤ v && v ≤ a))).all fun v =>
    laws.all fun law => (twoPass law (C04.one (s ++ [v]))).recs == (twoPass law (C04.one s)).recs
-- periodic insert / rotate
#eval T5.all fun s => (ins s).all fun s' => srt (Spec.periodicRainflow s') == srt (Spec.periodicRainflow s)
#eval T5.all fun s => (List.range s.length).all fun i => srt (Spec.periodicRainflow (s.drop i ++ s.take i)) == srt (Spec.periodicRainflow s)
-- C05 batch (without LF) and LF separately
def css : List (List Int) := [[1,2],[2,1],[1,3,2],[3,1]]
#eval T5.all fun s => css.all fun cs => laws.all fun law => (List.range cs.length).all fun k =>
  ((twoPass law (s.map fun l => cs.map (· * l))).recs.map (C05.proj k)) == ((twoPass law (s.map fun l => [cs.getD k 1 * l])).recs.map (C05.proj 0))
#eval T5.all fun s => css.all fun cs => [lawLinear].all fun law => (List.range cs.length).all fun k =>
  ((twoPass law (s.map fun l => cs.map (· * l))).recs.map (C05.projLF k)) == ((twoPass law (s.map fun l => [cs.getD k 1 * l])).recs.map (C05.projLF 0))
#eval (T5.filter fun s => css.all fun cs => [lawSat].all fun law => (List.range cs.length).all fun k =>
  ((twoPass law (s.map fun l => cs.map (· * l))).recs.map (C05.projLF k)) == ((twoPass law (s.map fun l => [cs.getD k 1 * l])).recs.map (C05.projLF 0))).length
-- negation mirror
#eval T5.all fun s => laws.all fun law =>
  (twoPass law ((C04.one s).map vneg)).recs == (twoPass law (C04.one s)).recs.map C05.mirror &&
  (twoPass law ((C04.one s).map vneg)).strainValues == (twoPass law (C04.one s)).strainValues.map (- ·)
-- guideline
#eval T.all fun s => laws.all fun law =>
  let st := twoPass law (C04.one s)
  let g := Spec.guideline law (C05.fedOf st 1) (C05.fedOf st 2)
  st.recs.map C05.toG == g.recs && st.strainValues == g.strains
