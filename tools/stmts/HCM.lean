import Model.HCMSpec
namespace PylifeVerif
open HCM

/-! ## C04 -/
namespace C04

/-- a one-point load sequence -/
def one (s : List Int) : List Vec := s.map fun x => [x]

/-- (min, max) load of the first point of every hysteresis recorded in pass 2 -/
def pass2Ranges (st : State) : List (Int × Int) :=
  (st.recs.filter (·.run = 2)).map fun h => (rep h.loadMin, rep h.loadMax)

def TwoDistinct (s : List Int) : Prop := ∃ a ∈ s, ∃ b ∈ s, a ≠ b

/-- Half-counted (Memory 3) hystereses are symmetric about zero and carry the zero-mean flag;
closed ones do not. -/
theorem memory3_symmetric (law : Law) (s : List Vec) :
    ∀ h ∈ (twoPass law s).recs,
      (h.closed = false → h.zeroMean = true ∧ h.loadMin = vneg h.loadMax ∧ h.sMin = vneg h.sMax ∧ h.eMin = vneg h.eMax) ∧
      (h.closed = true → h.zeroMean = false) := sorry

/-- Memory 3 occurs only in the first pass: every hysteresis of pass 2 is a full one. -/
theorem pass2_all_closed (law : Law) (s : List Vec) (h2 : TwoDistinct (s.map rep)) :
    ∀ h ∈ (twoPass law s).recs, h.run = 2 → h.closed = true := sorry

/-- The hystereses of the second pass are exactly the closed cycles of the endlessly repeated
sequence, each once. -/
theorem pass2_eq_periodicRainflow (law : Law) (s : List Int) (h2 : TwoDistinct s) :
    (pass2Ranges (twoPass law (one s))).Perm (Spec.periodicRainflow s) := sorry

/-- A sample lying (weakly) between its neighbours changes nothing that is recorded. -/
theorem hcm_insert_nonreversal_interior (law : Law) (pre post : List Int) (x y v : Int)
    (hv : (x ≤ v ∧ v ≤ y) ∨ (y ≤ v ∧ v ≤ x)) :
    (twoPass law (one (pre ++ x :: v :: y :: post))).recs = (twoPass law (one (pre ++ x :: y :: post))).recs := sorry

/-- A sample appended at the end that lies between the last and the first sample (a non-reversal
at the junction of the passes; a repetition of the first sample would itself be the reversal) changes
nothing that is recorded. -/
theorem hcm_append_nonreversal (law : Law) (s : List Int) (a z v : Int) (hs : s.head? = some a) (hz : s.getLast? = some z)
    (hv : (a ≤ v ∧ v ≤ z) ∨ (z ≤ v ∧ v ≤ a)) (hne : v ≠ a ∨ v = z) :
    (twoPass law (one (s ++ [v]))).recs = (twoPass law (one s)).recs := sorry

/-- The closed cycles of the repeated sequence do not depend on non-reversal samples anywhere in
the cyclic word. -/
theorem periodicRainflow_insert (pre post : List Int) (x y v : Int)
    (hv : (x ≤ v ∧ v ≤ y) ∨ (y ≤ v ∧ v ≤ x)) :
    (Spec.periodicRainflow (pre ++ x :: v :: y :: post)).Perm (Spec.periodicRainflow (pre ++ x :: y :: post)) := sorry

/-- … and not on where the period is cut. -/
theorem periodicRainflow_rotate (a b : List Int) :
    (Spec.periodicRainflow (a ++ b)).Perm (Spec.periodicRainflow (b ++ a)) := sorry
end C04

/-! ## C05 -/
namespace C05

/-- the law's secondary branch follows the sign of the load range (true for every monotone law) -/
def SignPreserving (law : Law) : Prop :=
  ∀ d : Int, (0 < d → 0 < law.dsigma d ∧ 0 < law.deps (law.dsigma d) d) ∧
             (d < 0 → law.dsigma d < 0 ∧ law.deps (law.dsigma d) d < 0) ∧
             (d = 0 → law.dsigma d = 0 ∧ law.deps (law.dsigma d) d = 0)

def OddLaw (law : Law) : Prop :=
  (∀ l, law.sigma (-l) = -law.sigma l) ∧ (∀ s l, law.eps (-s) (-l) = -law.eps s l) ∧
  (∀ d, law.dsigma (-d) = -law.dsigma d) ∧ (∀ s d, law.deps (-s) (-d) = -law.deps s d)

/-- columns of one point of a recorded hysteresis, without the running strain extremes -/
def proj (k : Nat) (h : Hyst) : List Int × Bool × Bool × Nat :=
  ([h.loadMin.getD k 0, h.loadMax.getD k 0, h.sMin.getD k 0, h.sMax.getD k 0, h.eMin.getD k 0, h.eMax.getD k 0],
   h.closed, h.zeroMean, h.run)

def projLF (k : Nat) (h : Hyst) : Int × Int := (h.eMinLF.getD k 0, h.eMaxLF.getD k 0)

/-- Points with proportional load histories: every point gets what it gets alone. -/
theorem hcm_batch_eq_single (law : Law) (hl : SignPreserving law) (L : List Int) (cs : List Int)
    (hc : ∀ c ∈ cs, 0 < c) (k : Nat) (hk : k < cs.length) :
    ((twoPass law (L.map fun l => cs.map (· * l))).recs.map (proj k)) =
      ((twoPass law (L.map fun l => [cs.getD k 1 * l])).recs.map (proj 0)) := sorry

/-- negating the loads mirrors all stresses and strains (odd law) -/
def mirror (h : Hyst) : Hyst :=
  { h with loadMin := vneg h.loadMax, loadMax := vneg h.loadMin, sMin := vneg h.sMax, sMax := vneg h.sMin,
           eMin := vneg h.eMax, eMax := vneg h.eMin, eMinLF := vneg h.eMaxLF, eMaxLF := vneg h.eMinLF }

theorem hcm_neg_mirror (law : Law) (ho : OddLaw law) (s : List Vec) :
    (twoPass law (s.map vneg)).recs = (twoPass law s).recs.map mirror ∧
    (twoPass law (s.map vneg)).strainValues = (twoPass law s).strainValues.map (- ·) := sorry

/-- the guideline record of one point, from the model's record -/
def toG (h : Hyst) : Spec.GHyst :=
  { loadMin := rep h.loadMin, loadMax := rep h.loadMax, sMin := rep h.sMin, sMax := rep h.sMax,
    eMin := rep h.eMin, eMax := rep h.eMax, eMinLF := rep h.eMinLF, eMaxLF := rep h.eMaxLF,
    closed := h.closed, run := h.run }

def fedOf (st : State) (run : Nat) : List Int := (st.fed.filter (·.1 = run)).map fun f => rep f.2

/-- The detector's records and visited strains equal those of the guideline procedure run on the
reversal sequences that the two passes are fed. -/
theorem hcm_model_eq_guideline (law : Law) (hl : SignPreserving law) (s : List Int) :
    let st := twoPass law (C04.one s)
    st.recs.map toG = (Spec.guideline law (fedOf st 1) (fedOf st 2)).recs ∧
    st.strainValues = (Spec.guideline law (fedOf st 1) (fedOf st 2)).strains := sorry
end C05
end PylifeVerif
