import Model.Rainflow.Spec
namespace PylifeVerif
open Rainflow

/-! ## C01 -/
namespace C01

/-- Feeding chunks to `_new_turns`: final bookkeeping state and all decided turns so far. -/
def turnsRun (cs : List (List Int)) : TurnState × List Pt :=
  cs.foldl (fun acc c => let r := newTurns acc.1 c; (r.1, acc.2 ++ r.2)) ({}, [])

theorem newTurns_chunk_independent (cs : List (List Int)) (hne : ∀ c ∈ cs, c ≠ []) :
    turnsRun cs = turnsRun [cs.flatten] := sorry

theorem fkm_chunk_independent (cs : List (List Int)) (hne : ∀ c ∈ cs, c ≠ []) :
    fkmRun cs = fkmRun [cs.flatten] := sorry

/-- four-point: everything observable except the recorder's chunk sizes -/
theorem fourPoint_chunk_independent (cs : List (List Int)) (hne : ∀ c ∈ cs, c ≠ []) (h0 : cs ≠ []) :
    let a := fpRun cs; let b := fpRun [cs.flatten]
    a.cycles = b.cycles ∧ a.stack = b.stack ∧ a.last = b.last ∧ a.ts = b.ts ∧
      a.residuals = b.residuals ∧ a.residualIndex = b.residualIndex ∧ a.chunks = cs.map List.length := sorry

theorem threePoint_chunk_independent (cs : List (List Int)) (hne : ∀ c ∈ cs, c ≠ []) (h0 : cs ≠ []) :
    let a := tpRun cs; let b := tpRun [cs.flatten]
    a.cycles = b.cycles ∧ a.stack = b.stack ∧ a.last = b.last ∧ a.ts = b.ts ∧
      a.residuals = b.residuals ∧ a.residualIndex = b.residualIndex ∧ a.chunks = cs.map List.length := sorry

theorem chunkLocalIndex_correct (cs : List (List Int)) (hne : ∀ c ∈ cs, c ≠ []) (g : Nat)
    (hg : g < cs.flatten.length) :
    ∃ c, cs[(chunkLocalIndex (cs.map List.length) g).1]? = some c ∧
      c[(chunkLocalIndex (cs.map List.length) g).2]? = cs.flatten[g]? ∧
      (chunkLocalIndex (cs.map List.length) g).2 < c.length := sorry
end C01

/-! ## C02 -/
namespace C02
/-- the scan of the code finds exactly the declaratively defined interior reversals -/
theorem findTurns_eq_reversals (s : List Int) : findTurns s = Spec.reversals s := sorry

/-- residual as points: decided stack (oldest first) and the last sample -/
def residualPts (st : DetState) : List Pt :=
  match st.last with
  | none => []
  | some l => st.stack.reverse ++ [(st.ts.head - 1, l)]

theorem fourPoint_eq_spec (s : List Int) (h : 2 ≤ s.length) :
    ((fpRun [s]).cycles, residualPts (fpRun [s])) = Spec.fourPoint (Spec.turningPoints s) := sorry

theorem fourPoint_partition (s : List Int) (h : 2 ≤ s.length) :
    (((fpRun [s]).cycles.flatMap fun c => [c.1, c.2]) ++ residualPts (fpRun [s])).Perm (Spec.turningPoints s) := sorry

theorem fourPoint_index_valid (s : List Int) (h : 2 ≤ s.length) :
    ∀ p ∈ ((fpRun [s]).cycles.flatMap fun c => [c.1, c.2]) ++ residualPts (fpRun [s]), s[p.1]? = some p.2 := sorry

theorem threePoint_same_cycles (s : List Int) (h : 2 ≤ s.length) :
    (tpRun [s]).cycles.Perm (fpRun [s]).cycles ∧ residualPts (tpRun [s]) = residualPts (fpRun [s]) := sorry

theorem fkm_eq_spec (s : List Int) :
    ((fkmRun [s]).cycles, (fkmRun [s]).res) =
      ((Spec.hcm ((Spec.reversals s).map (·.2))).cycles, (Spec.hcm ((Spec.reversals s).map (·.2))).res) := sorry

theorem fkm_partition (s : List Int) :
    (((fkmRun [s]).cycles.flatMap fun c => [c.1, c.2]) ++ (fkmRun [s]).res).Perm ((Spec.reversals s).map (·.2)) := sorry
end C02

/-! ## C03 -/
namespace C03
theorem findTurns_neg (s : List Int) :
    findTurns (s.map (- ·)) = (findTurns s).map fun p => (p.1, -p.2) := sorry

theorem findTurns_affine (s : List Int) (a b : Int) (ha : 0 < a) :
    findTurns (s.map (a * · + b)) = (findTurns s).map fun p => (p.1, a * p.2 + b) := sorry

def mapPt (f : Int → Int) (p : Pt) : Pt := (p.1, f p.2)
def mapCycle (f : Int → Int) (c : Cycle) : Cycle := (mapPt f c.1, mapPt f c.2)

theorem fourPoint_affine (cs : List (List Int)) (a b : Int) (ha : a ≠ 0) :
    let f := fun x => a * x + b
    let r := fpRun (cs.map (List.map f)); let r0 := fpRun cs
    r.cycles = r0.cycles.map (mapCycle f) ∧ r.stack = r0.stack.map (mapPt f) ∧ r.last = r0.last.map f ∧
      r.ts.head = r0.ts.head ∧ r.chunks = r0.chunks := sorry

theorem fkm_neg (cs : List (List Int)) :
    let r := fkmRun (cs.map (List.map (- ·))); let r0 := fkmRun cs
    r.cycles = r0.cycles.map (fun c => (-c.1, -c.2)) ∧ r.res = r0.res.map (- ·) ∧ r.ir = r0.ir ∧ r.ts.head = r0.ts.head := sorry

theorem threePoint_affine (cs : List (List Int)) (a b : Int) (ha : 0 < a) :
    let f := fun x => a * x + b
    let r := tpRun (cs.map (List.map f)); let r0 := tpRun cs
    r.cycles = r0.cycles.map (mapCycle f) ∧ r.stack = r0.stack.map (mapPt f) ∧ r.last = r0.last.map f := sorry

theorem threePoint_neg (cs : List (List Int)) :
    let f := fun (x : Int) => -x
    let r := tpRun (cs.map (List.map f)); let r0 := tpRun cs
    r.cycles = r0.cycles.map (mapCycle f) ∧ r.stack = r0.stack.map (mapPt f) ∧ r.last = r0.last.map f := sorry

/-- Inserting a sample `v` that lies (weakly) between its neighbours `x`,`y` keeps the turn values and
moves the indices behind the insertion point by one. -/
theorem findTurns_insert_nonreversal (pre post : List Int) (x y v : Int)
    (hv : (x ≤ v ∧ v ≤ y) ∨ (y ≤ v ∧ v ≤ x)) :
    (findTurns (pre ++ x :: v :: y :: post)).map (·.2) = (findTurns (pre ++ x :: y :: post)).map (·.2) := sorry

/-- position map of the NaN filter: number of NaNs needed so that a clean index lands at its
original position -/
def origIndex : List (Option Int) → Nat → Nat
  | [], i => i
  | none :: rest, i => origIndex rest i + 1
  | some _ :: rest, 0 => 0
  | some _ :: rest, i+1 => origIndex rest i + 1

theorem findTurnsNan_reindex (s : List (Option Int)) :
    findTurnsNan s = (findTurns (s.filterMap id)).map fun p => (origIndex s p.1, p.2) := sorry

theorem findTurnsNan_index_valid (s : List (Option Int)) :
    ∀ p ∈ findTurnsNan s, s[p.1]? = some (some p.2) := sorry
end C03
end PylifeVerif
