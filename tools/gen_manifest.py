#!/usr/bin/env python3
"""Writes MANIFEST.json from the table below (single source of truth for the interface)."""
import json, os
HERE = os.path.dirname(os.path.dirname(os.path.abspath(__file__)))
LEVEL_NOTE = ("Trusted: Lean 4.33 kernel, axioms propext/Classical.choice/Quot.sound only (audited per run), Mathlib v4.33 modules; the "
              "hand-written model is tied to /repo by this run's correspondence check (compiled model vs real code on the same inputs - differential "
              "testing, bounds what was seen); IEEE rounding, numpy/pandas/scipy runtimes and solver convergence are modelled, not verified.")
CHECKS = {
    "C01": ("Lean 4 proof (induction over chunk lists) + model/code correspondence",
            "Theorems about the Lean model of find_turns/_new_turns and the detector state machines; the model is run against the rebuilt Cython/Python detectors on every signal over 4 values up to length 5 (thorough: 7) x every partition plus seeded random signals; the chunking relation itself is also evaluated on the real code (incl. non-dyadic doubles).", "5 C01"),
    "C02": ("Lean 4 proof (detector = textbook rule, partition of turning points) + model/code correspondence",
            "Theorems relate the detector models to the textbook four-point rule / Clormann-Seeger HCM stated independently in Lean; the Lean spec functions are compared with the oracle's reference rules and the model with the real detectors on exhaustive small scopes and tie-heavy random signals.", "5 C02"),
    "C03": ("Lean 4 proof (symmetries of the reversal scan) + model/code correspondence",
            "Theorems about find_turns (scan = numpy formulation, negation/affine equivariance, non-reversal insertion, NaN re-indexing); correspondence on all difference-sign patterns up to length 7 (thorough: 10); refinement/negation/affine/Series-index relations evaluated on the real detectors.", "5 C03"),
}
CHECKS["C09"] = ("machine-checked proof (Lean 4 + Mathlib, real analysis / list induction) about an executable model, tied to the code by correspondence testing and a direct property oracle",
    "Proof (Lean 4, kernel-checked) over R of: mutual inverses, branch consistency at N = 10^3 and at the endurance knee, continuity, strict antitonicity in the finite range and infinity at/below endurance for the P_RAM and P_RAJ component Woehler curves; the P_RAM formula with the guideline mean-stress factor and constants; lifetime = literal damage accumulation (x = (1-D1)/D2 unique, 1+x passes, early-failure index = first prefix sum >= 1, by list induction); the three gamma_L formulas against restated guideline definitions. The safety index is partial: beta = -(unique root of Phi(x) = P_A) for abstract strictly increasing Phi; convergence of scipy's root search is measured per run. The model is hand-written and tied to the code by differential testing (bit-exact for constants, P_RAM rows and dyadic damage tables, 1e-11 otherwise) plus a direct property oracle.", "5 C09")
CHECKS["C08"] = ("Lean 4 machine-checked proof over R about an executable model + compiled-model/implementation correspondence + direct property oracle",
    "22 Lean-4 theorems over R about an executable model of woehlercurve.py (_make_k, basquin_cycles/basquin_load, transform_to_failure_probability, Miner modifiers, TN/TS defaults) and of the scatter conversions, for every k1>1, k2>=k1 or inf, SD, ND>0, TN, TS>=1, every failure probability and positive load/cycle number: cycles/load inverses with branch consistency across the knee, antitonicity, continuity at the knee, log-log slopes, infinite life for k2=inf, Miner variants, monotonicity in pf, N90/N10 and SD90/SD10 as powers TN^(2 z c), TS^(2 z c) (= TN, TS under 2 z c = 1; N90/N10 = TN proved for L >= SD90, exact ratio below the knee proved as well), transform composition and native identity, scatter conversions. The normal quantile is abstract (strictly increasing, odd). Tied to the code on every run by differential comparison (rtol 1e-11) of scalar, array, Series and DataFrame calls incl. exactly SD/ND; the property's relations are evaluated directly on the real code.", "5 C08")
CHECKS["C14"] = ("machine-checked proof (Lean 4 / Mathlib, induction over edge and break lists, ordered-field algebra) + compiled-model correspondence + direct property oracle",
    "Lean 4 proofs over R for an executable model of LoadCollective/LoadHistogram, numpy's bin rule, rebin_histogram and combine_histogram: consistency identities, from/to <-> range/mean round trips, scale/shift equivariance with cycles untouched; exactly-one-class and sum of contents = cycles in range for 1-D/2-D histograms over any weakly increasing edge list (induction over edges); range histogram = marginal; re-bin total conservation for any gap-free covering target and positive-width source classes, identity on the own binning, kernel-checked refutation of literal composition plus proofs that composition conserves the total and that A->B->C = A->C when B refines A; combine-by-sum conserves the grand total. The model describes the repaired code (four fix: commits) and is tied to it by bit-exact correspondence on an exhaustive small scope plus seeded random cases; a model-independent oracle evaluates the relations on the real code.", "5 C14")
CHECKS["C17"] = ("Lean 4 + Mathlib (spectral theorem, characteristic polynomial) proof on a generic-carrier executable model; bit-exact differential correspondence; direct property oracle",
    "Lean 4 proof, over R, for all symmetric 3x3 tensors, all orthogonal Q and all positive factors: Mises^2 equals the trace invariants; all ten equivalent stresses are invariant under Q S Q^T and positively homogeneous; Mises equals its principal form, Tresca = w_max - w_min, abs-max = eigenvalue of largest magnitude with its sign; Mises <= Tresca <= 2/sqrt(3) Mises; signed variants have the unsigned magnitude and the sign of the trace or abs-max eigenvalue (+1 at zero); the accessor is a row-wise map. numpy.linalg.eigvalsh is modelled by its contract (ascending roots of the characteristic polynomial, proved to exist, to be unique, rotation-invariant and to scale). The model is tied to the code by bit-exact correspondence on scalar, column and accessor paths plus an independent-eigenvalue oracle (1e-9 scale). Floating-point rounding is not verified.", "5 C17")
CHECKS["C11"] = ("Lean 4 proof over R of a carrier-generic executable model + compiled-model/implementation correspondence + direct property oracle",
    "Machine-checked (Lean 4, R) for the executable model of Fatigue.damage / WoehlerCurve.cycles / solidity.haibach / Miner lifetime multiples / gassner_cycles / gassner / effective_damage_sum: damage sum additive over appended collectives, proportional to counts, permutation invariant; original <= Haibach <= elementary class by class for k_1 >= 1; applying a collective for its Miner-elementary resp. Miner-Haibach Gassner cycles gives damage exactly 1 for every collective with non-negative data and at least one loaded occupied class, any empty classes, any position of SD, any load scale; effective damage sum in [0.3, 1]. The model is the repaired miner.py (fix 110dd2d); the old behaviour is refuted in the kernel. Tied to the code by a differential run (relative tolerance 1e-11) over range / range-mean / from-to histograms and LoadCollective frames through the registered accessors, including all occupancy patterns x SD positions of small histograms.", "5 C11")
CHECKS["C16"] = ("machine-checked proof (Lean 4 / Mathlib) over source-translated definitions + differential correspondence + direct property oracle",
    "25 Lean theorems over R about definitions regenerated from the current source on every run by an ast->Lean translator (RO strain odd / strictly increasing / bijective with exact inverse, compliance = derivative everywhere incl. 0, modulus = reciprocal = derivative of the inverse, Masing doubling and inverse, hysteresis reversal point, Hooke 1D/plane stress/plane strain/3D round trips and plane<->3D agreement, G and K, true stress/strain inverses); the translator is validated each run by differential comparison of the generated definitions at Float with the real functions (bit-exact for + - x /, 1e-12 relative for pow/log); convergence of the Newton inverse is not proved, it is measured against bisection within the solver's tolerance.", "5 C16")
CHECKS["C13"] = ("Lean 4 proofs about an executable relational-join model + differential correspondence with the real Broadcaster + direct oracle (look-up relation, identical index, inputs unchanged, consumers)",
    "Proof level for a relational model of the Broadcaster: for every pair of tables the code accepts, the two returned tables have the same level names and the same key list; every returned row carries the payload the original holds at the key restricted to the original's levels, or NaN if absent; every row stems from operand rows that agree on the shared levels; every agreeing pair is present; disjoint names give |obj| x |prm| rows. The code accepts every pair of the quantifier except the open finding contained-multi-shared-missing-key (broadcast_total_partial). The theorems are close to the model's definition; the decisive tie to the pandas-based code is this run's correspondence (exhaustive small scopes plus seeded layouts). 'Operands unchanged' and the consumer clauses (allowable cycles, Haigh diagram) are tested on the real code, not proved.", "5 C13")
PENDING = {}
def main():
    props = [json.loads(l) for l in open(os.path.join(HERE, "properties.jsonl"))]
    checks = []
    na = []
    for p in props:
        pid = p["id"]
        if pid in CHECKS:
            tech, text, ref = CHECKS[pid]
            checks.append({
                "property_id": pid,
                "quick_cmd": f"./check {pid} --tier quick",
                "thorough_cmd": f"./check {pid} --tier thorough",
                "evidence_file": f"evidence/{pid}.json",
                "replay_cmd_template": f"./check {pid} --replay {{path}}",
                "engine": "lean4-model+correspondence",
                "level_claimed": {"category": "proof", "text": text, "design_ref": f"DESIGN.md section {ref}"},
                "level_note": LEVEL_NOTE,
                "technique": tech,
            })
        else:
            na.append({"property_id": pid, "reason": PENDING.get(pid, "check not built yet (build round in progress; see DESIGN.md section 8); the property is expressible in the Lean model and will be claimed once its check exists")})
    m = {
        "version": 1,
        "setup_cmd": "./setup.sh",
        "hooks": {"guard": "PYLIFE_VERIF", "enable": "no hooks: every observation point is public API; checks run the working tree in-process via /venv (editable install) and rebuild extension.pyx themselves",
                  "baseline_off_cmd": "tools/baseline.sh", "source_commits": [], "add_only": True},
        "engines": [{"name": "lean4-model+correspondence", "path": "lean/ + harness/", "serves_properties": sorted(CHECKS),
                     "kind_free_text": "Lean 4 theorems about an executable model; compiled model driver compared with the real implementation through a line protocol; direct property oracle on the implementation as failing-input search"}],
        "checks": checks,
        "notes": "Genuine defects of the unchanged tree are either repaired by 'fix:' commits in /repo or listed in KNOWN_FINDINGS.jsonl (see DESIGN.md section 6).",
        "not_applicable": na,
    }
    json.dump(m, open(os.path.join(HERE, "MANIFEST.json"), "w"), indent=1)
    print(f"{len(checks)} checks, {len(na)} not claimed")
if __name__ == "__main__":
    main()
