#!/usr/bin/env python3
"""Writes MANIFEST.json from the table below (single source of truth for the interface)."""
import json, os
HERE = os.path.dirname(os.path.dirname(os.path.abspath(__file__)))
LEVEL_NOTE = ("Trusted: Lean 4.33 kernel, axioms propext/Classical.choice/Quot.sound only (audited per run), Mathlib v4.33 modules; the "
              "hand-written model is tied to /repo by this run's correspondence check (compiled model vs real code on the same inputs - differential "
              "testing, bounds what was seen); IEEE rounding, numpy/pandas/scipy runtimes and solver convergence are modelled, not verified.")
CHECKS = {
    "C01": ("Lean 4 proof (induction over chunk lists) + model/code correspondence",
            "Theorems about the Lean model of find_turns/_new_turns and the detector state machines; the model is run against the rebuilt Cython/Python detectors on every signal over 4 values up to length 5 (thorough: 7) x every partition plus seeded random signals; the chunking relation itself is also evaluated on the real code (incl. non-dyadic doubles).", "5 C01"),
    "C02": ("Lean 4 proof (detector = textbook rule, partition of turning points) + model/code correspondence",
            "Theorems relate the detector models to the textbook four-point rule / Clormann-Seeger HCM stated independently in Lean; the Lean spec functions are compared with the oracle's reference rules and the model with the real detectors on exhaustive small scopes and tie-heavy random signals.", "5 C02"),
    "C03": ("Lean 4 proof (symmetries of the reversal scan) + model/code correspondence",
            "Theorems about find_turns (scan = numpy formulation, negation/affine equivariance, non-reversal insertion, NaN re-indexing); correspondence on all difference-sign patterns up to length 7 (thorough: 10); refinement/negation/affine/Series-index relations evaluated on the real detectors.", "5 C03"),
}
CHECKS["C09"] = ("machine-checked proof (Lean 4 + Mathlib, real analysis / list induction) about an executable model, tied to the code by correspondence testing and a direct property oracle",
    "Proof (Lean 4, kernel-checked) over R of: mutual inverses, branch consistency at N = 10^3 and at the endurance knee, continuity, strict antitonicity in the finite range and infinity at/below endurance for the P_RAM and P_RAJ component Woehler curves; the P_RAM formula with the guideline mean-stress factor and constants; lifetime = literal damage accumulation (x = (1-D1)/D2 unique, 1+x passes, early-failure index = first prefix sum >= 1, by list induction); the three gamma_L formulas against restated guideline definitions. The safety index is partial: beta = -(unique root of Phi(x) = P_A) for abstract strictly increasing Phi; convergence of scipy's root search is measured per run. The model is hand-written and tied to the code by differential testing (bit-exact for constants, P_RAM rows and dyadic damage tables, 1e-11 otherwise) plus a direct property oracle.", "5 C09")
PENDING = {}
def main():
    props = [json.loads(l) for l in open(os.path.join(HERE, "properties.jsonl"))]
    checks = []
    na = []
    for p in props:
        pid = p["id"]
        if pid in CHECKS:
            tech, text, ref = CHECKS[pid]
            checks.append({
                "property_id": pid,
                "quick_cmd": f"./check {pid} --tier quick",
                "thorough_cmd": f"./check {pid} --tier thorough",
                "evidence_file": f"evidence/{pid}.json",
                "replay_cmd_template": f"./check {pid} --replay {{path}}",
                "engine": "lean4-model+correspondence",
                "level_claimed": {"category": "proof", "text": text, "design_ref": f"DESIGN.md section {ref}"},
                "level_note": LEVEL_NOTE,
                "technique": tech,
            })
        else:
            na.append({"property_id": pid, "reason": PENDING.get(pid, "check not built yet (build round in progress; see DESIGN.md section 8); the property is expressible in the Lean model and will be claimed once its check exists")})
    m = {
        "version": 1,
        "setup_cmd": "./setup.sh",
        "hooks": {"guard": "PYLIFE_VERIF", "enable": "no hooks: every observation point is public API; checks run the working tree in-process via /venv (editable install) and rebuild extension.pyx themselves",
                  "baseline_off_cmd": "tools/baseline.sh", "source_commits": [], "add_only": True},
        "engines": [{"name": "lean4-model+correspondence", "path": "lean/ + harness/", "serves_properties": sorted(CHECKS),
                     "kind_free_text": "Lean 4 theorems about an executable model; compiled model driver compared with the real implementation through a line protocol; direct property oracle on the implementation as failing-input search"}],
        "checks": checks,
        "notes": "Genuine defects of the unchanged tree are either repaired by 'fix:' commits in /repo or listed in KNOWN_FINDINGS.jsonl (see DESIGN.md section 6).",
        "not_applicable": na,
    }
    json.dump(m, open(os.path.join(HERE, "MANIFEST.json"), "w"), indent=1)
    print(f"{len(checks)} checks, {len(na)} not claimed")
if __name__ == "__main__":
    main()
