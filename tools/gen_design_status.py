#!/venv/bin/python
"""Regenerates the machine-written part of DESIGN.md (between the AUTO markers): per-property theorem
lists (from the harness modules), findings (KNOWN_FINDINGS.jsonl) and the seeded-change table."""
import glob
import importlib
import json
import os
import subprocess
import sys

HERE = os.path.dirname(os.path.dirname(os.path.abspath(__file__)))
sys.path.insert(0, HERE)
BEGIN = "<!-- AUTO-STATUS-BEGIN (tools/gen_design_status.py) -->"
END = "<!-- AUTO-STATUS-END -->"


def prop_class(pid):
    from harness import main
    if pid in main.REGISTRY:
        m, c = main.REGISTRY[pid]
    else:
        m, c = "harness." + pid.lower(), pid
    return getattr(importlib.import_module(m), c)


def splice_sections(s):
    """Section 5: the sub-section '### Cxx ...' is replaced by tools/design_sections/Cxx.md when that file exists (written from the
    harness modules and the Lean files after the audit round)."""
    import re
    a = s.index("## 5. Per-property design")
    b = s.index("## 6.", a)
    sec = s[a:b]
    parts = re.split(r"(?m)^(?=### C\d\d )", sec)
    out = [parts[0]]
    for part in parts[1:]:
        pid = part[4:7]
        f = os.path.join(HERE, "tools", "design_sections", pid + ".md")
        if os.path.exists(f):
            body = open(f).read().rstrip() + "\n\n"
            tail = ""
            m = re.search(r"(?m)^-{20,}\s*$", part)
            if m and pid == "C20":
                tail = part[m.start():]
            out.append(body + tail)
        else:
            out.append(part)
    return s[:a] + "".join(out) + s[b:]


def main():
    props = [json.loads(l) for l in open(os.path.join(HERE, "properties.jsonl"))]
    out = [BEGIN, "", "### 9.5 Theorems per property (generated from the harness modules; every name is audited with `#print axioms` on every run)", ""]
    for p in props:
        pid = p["id"]
        try:
            cls = prop_class(pid)
        except Exception as e:  # noqa
            out.append(f"* **{pid}** - no harness module ({e})")
            continue
        th = [t.replace("PylifeVerif.", "") for t in cls.THEOREMS]
        out.append(f"* **{pid}** ({len(th)} theorems; modules {', '.join(cls.LEAN_MODULES)}): " + ", ".join(f"`{t}`" for t in th))
        for k, v in (cls.PARTIAL or {}).items():
            out.append(f"  * partial `{k.replace('PylifeVerif.', '')}`: {v}")
    out += ["", "### 9.6 Findings (generated from KNOWN_FINDINGS.jsonl)", "", "| property | status | class | commit | what |", "|---|---|---|---|---|"]
    for line in open(os.path.join(HERE, "KNOWN_FINDINGS.jsonl")):
        line = line.strip()
        if not line or line.startswith("#"):
            continue
        e = json.loads(line)
        what = e["what"]
        if what.startswith("fixed: "):
            what = what.split(" ", 3)[3] if len(what.split(" ", 3)) > 3 else what
        out.append(f"| {e['property']} | {e['status']} | {e['class']} | {e.get('commit', '')} | {what[:260]} |")
    out += ["", "### 9.7 Seeded changes (independent sub-agents, property text + scratch worktree only) and what the checks report", ""]
    r = subprocess.run([sys.executable, os.path.join(HERE, "tools", "seeded_table.py")], capture_output=True, text=True)
    out.append(r.stdout.strip())
    out += ["", END]
    path = os.path.join(HERE, "DESIGN.md")
    s = open(path).read()
    s = splice_sections(s)
    block = "\n".join(out)
    if BEGIN in s:
        s = s[:s.index(BEGIN)] + block + s[s.index(END) + len(END):]
    else:
        s = s.rstrip() + "\n\n" + block + "\n"
    open(path, "w").write(s)
    print("DESIGN.md status block written:", len(out), "lines")


if __name__ == "__main__":
    main()
