#!/usr/bin/env python3
"""Markdown table of the seeded changes under /verif/seeded (from their meta.json)."""
import glob, json, os
rows = []
for mp in sorted(glob.glob(os.path.join(os.path.dirname(os.path.dirname(os.path.abspath(__file__))), "seeded", "*", "meta.json"))):
    m = json.load(open(mp))
    name = os.path.basename(os.path.dirname(mp))
    chk = m.get("check", {})
    rf = chk.get("replay_first") or {}
    what = ""
    notes = os.path.join(os.path.dirname(mp), "notes.md")
    if os.path.exists(notes):
        for line in open(notes):
            line = line.strip().lstrip("#").strip()
            if line:
                what = line[:110]
                break
    res = "missed" if not m.get("detected") else ("VIOLATION + failing input" if m.get("detected_with_failing_input") else "VIOLATION no-failing-input-found")
    for oc, ov in (m.get("other_checks") or {}).items():
        res += f"; reported by ./check {oc}: {ov}"
    suite = m.get("suite")
    if m.get("stale"):
        res += f" (last verified at /repo {m.get('repo_head')}; patch no longer applies to the repaired code)"
    elif m.get("repo_head"):
        res += f" (/repo {m.get('repo_head')})"
    rows.append(f"| {name} | {what} | {'yes' if m.get('demo_confirms') else 'NO'} | {('%d/%d' % (suite['stable_pass'] - len(suite['baseline_tests_not_passing']), suite['stable_pass'])) if suite else 'by seeder'} | {res} | {rf.get('class') or ''} |")
print("| seeded change | what it is (first line of its notes) | demo fails with / passes without | suite | ./check result | finding class |")
print("|---|---|---|---|---|---|")
print("\n".join(rows))
