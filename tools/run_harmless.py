#!/venv/bin/python
"""usage: tools/run_harmless.py <PROP> <dir with patch.diff [notes.md demo.py]> <name>

A HARMLESS change (the property still holds; written by an independent sub-agent that saw the property text and a scratch
worktree only) is applied to a scratch worktree of /repo; every check whose SOURCES contain a touched file is run against
it (quick tier).  Expected: exit 0.  What is reported instead is recorded in /verif/harmless/<PROP>-<name>/meta.json:
  quiet                       - exit 0
  no-failing-input-found      - the correspondence / a proof obligation broke and no violating input was found
                                (what the brief prescribes for a rewrite the machinery can no longer follow)
  failing-input               - the check claims a violating input: a FALSE ALARM unless the change is not harmless after all
"""
import importlib
import json
import os
import re
import shutil
import subprocess
import sys
import tempfile

HERE = os.path.dirname(os.path.dirname(os.path.abspath(__file__)))
sys.path.insert(0, HERE)


def sources_of(pid):
    from harness import main
    m, c = main.REGISTRY.get(pid, ("harness." + pid.lower(), pid))
    return list(getattr(importlib.import_module(m), c).SOURCES)


def main():
    pid, src, name = sys.argv[1], os.path.abspath(sys.argv[2]), sys.argv[3]
    dst = os.path.join(HERE, "harmless", f"{pid}-{name}")
    os.makedirs(dst, exist_ok=True)
    for f in ("patch.diff", "notes.md", "demo.py"):
        if os.path.exists(os.path.join(src, f)) and os.path.abspath(src) != os.path.abspath(dst):
            shutil.copy(os.path.join(src, f), os.path.join(dst, f))
    patch = os.path.join(dst, "patch.diff")
    touched = re.findall(r"^\+\+\+ b/(\S+)", open(patch).read(), flags=re.M)
    props = [json.loads(l)["id"] for l in open(os.path.join(HERE, "properties.jsonl"))]
    which = [pid] + [p for p in props if p != pid and any(t in sources_of(p) for t in touched)]
    head = subprocess.run(["git", "-C", "/repo", "rev-parse", "--short", "HEAD"], capture_output=True, text=True).stdout.strip()
    results = {}
    for p in which:
        r = subprocess.run([os.path.join(HERE, "tools", "run_seeded.sh"), p, patch], capture_output=True, text=True,
                           env=dict(os.environ, TAIL="400"))
        lines = [l for l in r.stdout.splitlines() if l.startswith("VIOLATION")]
        if r.returncode == 0 and not lines:
            verdict = "quiet"
        elif r.returncode == 1 and lines and all(l.rstrip().endswith("no-failing-input-found") for l in lines):
            verdict = "no-failing-input-found"
        elif r.returncode == 1 and lines:
            verdict = "failing-input"
        else:
            verdict = f"infrastructure rc={r.returncode}"
        detail = [l for l in r.stdout.splitlines() if re.search(r"disagree|failing|FAIL|broken|mismatch|translat", l)][-6:]
        results[p] = {"exit": r.returncode, "verdict": verdict, "lines": lines, "detail": detail}
    meta = {"property": pid, "name": name, "repo_head": head, "touched": touched, "checks": results}
    json.dump(meta, open(os.path.join(dst, "meta.json"), "w"), indent=1)
    print(json.dumps({"property": pid, "name": name, **{p: v["verdict"] for p, v in results.items()}}))


if __name__ == "__main__":
    main()
