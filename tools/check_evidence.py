#!/venv/bin/python
"""Gate before a commit: every evidence/Cxx.json is schema-valid, comes from /repo's CURRENT sources (hashes), shows no violation,
all obligations discharged, quick tier, seed 1.  exit 0 iff all 20 are fine."""
import hashlib
import json
import os
import sys

import jsonschema

HERE = os.path.dirname(os.path.dirname(os.path.abspath(__file__)))
schema = json.load(open("/root/.vp/EVIDENCE.schema.json"))
bad = 0
for line in open(os.path.join(HERE, "properties.jsonl")):
    pid = json.loads(line)["id"]
    path = os.path.join(HERE, "evidence", pid + ".json")
    probs = []
    try:
        ev = json.load(open(path))
        jsonschema.validate(ev, schema)
        cov = ev["coverage"]
        if ev.get("violations"):
            probs.append("violations != 0")
        if cov["discharged"] != cov["obligations"]:
            probs.append(f"discharged {cov['discharged']} of {cov['obligations']}")
        for src, h in cov.get("sources", {}).items():
            cur = hashlib.sha256(open(os.path.join("/repo", src), "rb").read()).hexdigest()[:len(h)]
            if cur != h:
                probs.append(f"stale source hash {src}")
        if ev.get("tier") != "quick" or ev.get("seed") != 1:
            probs.append(f"tier {ev.get('tier')} seed {ev.get('seed')}")
    except Exception as e:  # noqa
        probs.append(f"{type(e).__name__}: {str(e)[:200]}")
    if probs:
        bad += 1
        print(pid, "PROBLEM:", "; ".join(probs))
print("evidence files with problems:", bad)
sys.exit(1 if bad else 0)
