#!/usr/bin/env python3
"""Confirm a seeded change and run the check against it.

usage: tools/verify_seed.py <PROP> <dir with patch.diff + demo.py [+ notes.md]> <name> [--suite] [--tier quick]

1. scratch worktree of /repo HEAD; demo.py must PASS there;
2. apply patch.diff; demo.py must FAIL;
3. (--suite) the whole test suite in the patched worktree must pass every BASELINE stable_pass test;
4. ./check PROP against the patched worktree (PYLIFE_REPO): records exit code and the VIOLATION line;
5. stores /verif/seeded/<PROP>-<name>/{patch.diff, demo.py, notes.md, meta.json}; removes the worktree.
"""
import json
import os
import shutil
import subprocess
import sys
import tempfile
import time
import xml.etree.ElementTree as ET

VERIF = os.path.dirname(os.path.dirname(os.path.abspath(__file__)))


def sh(cmd, cwd=None, env=None, timeout=3600):
    p = subprocess.run(cmd, cwd=cwd, env=env, shell=isinstance(cmd, str), capture_output=True, text=True, timeout=timeout)
    return p.returncode, p.stdout + p.stderr


def main():
    prop, src, name = sys.argv[1], sys.argv[2], sys.argv[3]
    suite = "--suite" in sys.argv
    tier = sys.argv[sys.argv.index("--tier") + 1] if "--tier" in sys.argv else "quick"
    wt = tempfile.mkdtemp(prefix="seedverify.", dir="/tmp")
    os.rmdir(wt)
    rc, out = sh(["git", "-C", "/repo", "worktree", "add", "-q", wt, "HEAD"])
    assert rc == 0, out
    meta = {"property": prop, "name": name, "repo_head": sh(["git", "-C", "/repo", "log", "--format=%h", "-1"])[1].strip(), "ran": []}
    try:
        sh(f"cp /repo/src/pylife/*.so {wt}/src/pylife/")
        env = dict(os.environ, PYTHONPATH=f"{wt}/src")
        demo = os.path.join(src, "demo.py")
        rc0, out0 = sh(["/venv/bin/python", "-W", "ignore", demo], cwd=wt, env=env, timeout=1800)
        meta["demo_on_unchanged_tree"] = {"exit": rc0, "tail": out0[-600:]}
        meta["ran"].append(f"PYTHONPATH=<worktree>/src /venv/bin/python demo.py   (unchanged worktree) -> exit {rc0}")
        patch = os.path.join(src, "patch-current.diff") if os.path.exists(os.path.join(src, "patch-current.diff")) else os.path.join(src, "patch.diff")
        rc, out = sh(["git", "-C", wt, "apply", patch])
        if rc != 0:
            rc, out = sh(["git", "-C", wt, "apply", "--3way", patch])
        if rc != 0:
            # the code the change was written against has meanwhile been repaired / rewritten by fix: commits: keep the last
            # verified result and say at which /repo commit the patch stopped applying
            dst = os.path.join(VERIF, "seeded", f"{prop}-{name}", "meta.json")
            if os.path.exists(dst):
                oldm = json.load(open(dst))
                if "error" not in oldm:
                    oldm["stale"] = (f"patch.diff no longer applies to /repo HEAD {meta['repo_head']} (the code it changes was repaired or rewritten by later "
                                     f"fix: commits); result below is the last verified one, at /repo {oldm.get('repo_head')}")
                    json.dump(oldm, open(dst, "w"), indent=1)
                    print(json.dumps({"property": prop, "name": name, "stale": True, "detected": oldm.get("detected")}))
                    return 0
            meta["error"] = "patch does not apply to /repo HEAD: " + out[-400:]
            print(meta["error"])
            return finish(meta, src, prop, name, wt)
        if "extension.pyx" in open(patch).read():
            rc, out = sh("/venv/bin/python setup.py -q build_ext --inplace", cwd=wt, env=env, timeout=900)
            meta["ran"].append(f"rebuilt the Cython extension in the worktree -> exit {rc}")
        rc1, out1 = sh(["/venv/bin/python", "-W", "ignore", demo], cwd=wt, env=env, timeout=1800)
        if rc0 == 0 and rc1 == 0:
            # the change no longer breaks the property on this tree (the code it weakened was repaired meanwhile): keep the last
            # verified result and say so, instead of recording a 'missed' that is none
            dst = os.path.join(VERIF, "seeded", f"{prop}-{name}", "meta.json")
            if os.path.exists(dst):
                oldm = json.load(open(dst))
                if oldm.get("demo_confirms") and oldm.get("repo_head") != meta["repo_head"]:
                    oldm["stale"] = (f"at /repo HEAD {meta['repo_head']} demo.py passes with the patch applied: the change is no longer property-breaking on the repaired code; "
                                     f"result below is the last verified one, at /repo {oldm.get('repo_head')}")
                    json.dump(oldm, open(dst, "w"), indent=1)
                    print(json.dumps({"property": prop, "name": name, "stale": True, "detected": oldm.get("detected")}))
                    return 0
        meta["demo_with_change"] = {"exit": rc1, "tail": out1[-600:]}
        meta["ran"].append(f"git apply patch.diff; PYTHONPATH=<worktree>/src /venv/bin/python demo.py -> exit {rc1}")
        meta["demo_confirms"] = (rc0 == 0 and rc1 != 0)
        if suite:
            t0 = time.time()
            junit = os.path.join(wt, "junit.xml")
            rc, out = sh(f"/venv/bin/python -m pytest -q -p no:cacheprovider --timeout=900 --continue-on-collection-errors --junitxml={junit}", cwd=wt, env=env, timeout=7200)
            base = json.load(open("/root/.vp/BASELINE.json"))["stable_pass"]
            ok = set()
            try:
                for tc in ET.parse(junit).getroot().iter("testcase"):
                    if not any(ch.tag in ("failure", "error", "skipped") for ch in tc):
                        ok.add(f"{tc.get('classname')}::{tc.get('name')}")
            except Exception as e:  # noqa
                meta["suite_error"] = repr(e)
            missing = [t for t in base if t not in ok]
            meta["suite"] = {"stable_pass": len(base), "passing": len(ok), "baseline_tests_not_passing": missing[:20], "seconds": round(time.time() - t0)}
            meta["ran"].append(f"whole test suite in the patched worktree: {len(base) - len(missing)}/{len(base)} baseline tests pass")
        # the check (files that a check regenerates from the source - lean/Generated - are saved and restored,
        # so that a seeded run never leaves translated definitions of a mutated source behind)
        gen = os.path.join(VERIF, "lean", "Generated")
        gen_backup = tempfile.mkdtemp(prefix="seedgen.")
        shutil.copytree(gen, os.path.join(gen_backup, "Generated"))
        t0 = time.time()
        env2 = dict(os.environ, PYLIFE_REPO=wt, VERIF_EVIDENCE_DIR=tempfile.mkdtemp(prefix="seedev."))
        rc, out = sh(["./check", prop, "--tier", tier], cwd=VERIF, env=env2, timeout=7200)
        shutil.rmtree(gen)
        shutil.copytree(os.path.join(gen_backup, "Generated"), gen)
        shutil.rmtree(gen_backup, ignore_errors=True)
        vio = [l for l in out.splitlines() if l.startswith("VIOLATION")]
        meta["check"] = {"cmd": f"PYLIFE_REPO=<patched worktree> ./check {prop} --tier {tier}", "exit": rc, "violation_line": vio[:1], "seconds": round(time.time() - t0),
                         "tail": [l for l in out.splitlines() if not l.startswith("WARNING conda")][-8:]}
        meta["ran"].append(meta["check"]["cmd"] + f" -> exit {rc} {vio[:1]}")
        if vio and "replay=" in vio[0]:
            rp = vio[0].split("replay=")[1].split()[0]
            try:
                rj = json.load(open(os.path.join(VERIF, rp)))
                f0 = (rj.get("failures") or rj.get("broken") or [{}])[0]
                meta["check"]["replay_first"] = {"kind": f0.get("kind"), "class": f0.get("class"), "detail": str(f0.get("detail"))[:400], "case": f0.get("case")}
            except Exception:
                pass
        meta["detected"] = (rc == 1 and bool(vio))
        meta["detected_with_failing_input"] = bool(vio) and "no-failing-input-found" not in vio[0]
        return finish(meta, src, prop, name, wt)
    finally:
        sh(["git", "-C", "/repo", "worktree", "remove", "--force", wt])


def finish(meta, src, prop, name, wt):
    dst = os.path.join(VERIF, "seeded", f"{prop}-{name}")
    os.makedirs(dst, exist_ok=True)
    for f in ("patch.diff", "demo.py", "notes.md"):
        if os.path.exists(os.path.join(src, f)) and os.path.realpath(src) != os.path.realpath(dst):
            shutil.copy(os.path.join(src, f), os.path.join(dst, f))
    old = {}
    mp = os.path.join(dst, "meta.json")
    if os.path.exists(mp):
        old = json.load(open(mp))
        if "suite" in old and "suite" not in meta:
            meta["suite"] = old["suite"]
    json.dump(meta, open(mp, "w"), indent=1)
    print(json.dumps({k: meta.get(k) for k in ("property", "name", "demo_confirms", "detected", "detected_with_failing_input")}, indent=None),
          meta.get("check", {}).get("violation_line"), meta.get("suite"))
    return 0


if __name__ == "__main__":
    sys.exit(main())
