#!/bin/sh
# Run /repo's test suite (hooks guard OFF: there are no hooks) and compare with BASELINE.json's stable_pass list.
# usage: tools/baseline.sh  -> exit 0 iff every stable_pass test passes
OUT=$(mktemp -d)
cd /repo && env -u PYLIFE_VERIF /venv/bin/python -m pytest -ra -q -p no:cacheprovider --timeout=900 --continue-on-collection-errors --junitxml=$OUT/junit.xml >$OUT/log 2>&1
/venv/bin/python - "$OUT/junit.xml" <<'PY'
import json, sys
import xml.etree.ElementTree as ET
base = json.load(open('/root/.vp/BASELINE.json'))['stable_pass']
root = ET.parse(sys.argv[1]).getroot()
ok = set()
for tc in root.iter('testcase'):
    bad = any(ch.tag in ('failure', 'error', 'skipped') for ch in tc)
    if not bad:
        ok.add(f"{tc.get('classname')}::{tc.get('name')}")
missing = [t for t in base if t not in ok]
print(f"stable_pass {len(base)}; passing now {len(ok)}; baseline tests not passing: {len(missing)}")
for m in missing[:20]:
    print("  MISSING", m)
sys.exit(1 if missing else 0)
PY
rc=$?
rm -rf "$OUT"
exit $rc
